//! Family `cloudconc`: several clients of ONE object store, interleaved at single store requests
//! (C09, and with CLEAN calls C10).
//!   CLIENTS n
//!   BEGIN c AV <parent> <d> | BEGIN c GC <parent> | BEGIN c AS <version> <d> | BEGIN c GS | BEGIN c CLEAN
//!   STEP c             client c performs its next store request; the executed line carries what the
//!                      store logged (`:: <request> -> <result>`), and `:: ret …` when the call returned
//!   AGE n              the store's clock advances n days (object creation times)
//!   END                final contents of the store
use crate::common::*;
use std::collections::HashMap;
use std::future::Future;
use std::pin::Pin;
use taskchampion::server::verif::{new_store, Store, VerifCloud};
use taskchampion::server::{AddVersionResult, GetVersionResult};
use taskchampion::Server;
use uuid::Uuid;

enum Ret {
    Av(Result<AddVersionResult, String>),
    Gc(Result<GetVersionResult, String>),
    Unit(Result<(), String>),
    Gs(Result<Option<(Uuid, Vec<u8>)>, String>),
}

pub struct Conc {
    store: Store,
    servers: Vec<*mut VerifCloud>,
    futs: Vec<Option<Pin<Box<dyn Future<Output = Ret>>>>>,
    syms: HashMap<String, String>, // 32-hex -> symbol
    nver: usize,
    logpos: usize,
    /// the parent the first accepted version was stored under (any parent is accepted while the
    /// chain is empty): where a replica that has nothing starts walking
    first_parent: Option<Uuid>,
    pub stats: HashMap<String, u64>,
}

impl Drop for Conc {
    fn drop(&mut self) {
        self.futs.clear();
        for s in self.servers.drain(..) {
            unsafe { drop(Box::from_raw(s)) };
        }
    }
}

fn payload(d: &str) -> Vec<u8> {
    format!("payload-{}", d).into_bytes()
}

impl Conc {
    pub fn new(n: usize, cleanup: bool, rng: &mut Rng) -> Conc {
        // (one more client than the case uses: the fresh replica of the final walk)
        let store = new_store(n + 1);
        if cleanup {
            // objects are created "400 days ago"; AGE moves the store's clock towards now, so a case
            // has both versions older and younger than the retention age
            let now = std::time::SystemTime::now().duration_since(std::time::UNIX_EPOCH).unwrap().as_secs();
            store.lock().unwrap().clock = now - 400 * 86400;
        }
        taskchampion::server::verif::set_rand(Some(255));
        // the clients open the (empty) store at the same time, their requests interleaved at random:
        // whoever creates the salt, everybody must end up with the same key
        {
            let mut st = store.lock().unwrap();
            for i in 0..n {
                st.permits[i] = Some(0);
            }
        }
        let mut opening: Vec<Option<Pin<Box<dyn Future<Output = Result<VerifCloud, taskchampion::Error>>>>>> = Vec::new();
        for i in 0..n {
            opening.push(Some(Box::pin(VerifCloud::new(store.clone(), i, b"conc secret".to_vec()))));
        }
        let mut opened: Vec<Option<VerifCloud>> = (0..n).map(|_| None).collect();
        let mut guard = 0;
        while opening.iter().any(|o| o.is_some()) && guard < 10_000 {
            guard += 1;
            let todo: Vec<usize> = (0..n).filter(|i| opening[*i].is_some()).collect();
            let i = *rng.pick(&todo[..]);
            {
                let mut st = store.lock().unwrap();
                st.permits[i] = Some(1);
                st.at_gate[i] = false;
            }
            let mut fut = opening[i].take().unwrap();
            let st2 = store.clone();
            match poll_until(&mut fut, &|| st2.lock().unwrap().at_gate[i]) {
                Some(r) => opened[i] = Some(r.expect("cloud server")),
                None => opening[i] = Some(fut),
            }
            store.lock().unwrap().permits[i] = Some(0);
        }
        let mut servers = Vec::new();
        for o in opened {
            servers.push(Box::into_raw(Box::new(o.expect("client opened"))));
        }
        let logpos = store.lock().unwrap().log.len();
        let mut c = Conc { store, servers, futs: Vec::new(), syms: HashMap::new(), nver: 0, logpos, first_parent: None, stats: HashMap::new() };
        for _ in 0..n {
            c.futs.push(None);
        }
        c.syms.insert(Uuid::nil().simple().to_string(), "nil".into());
        c
    }

    fn stat(&mut self, k: &str) {
        *self.stats.entry(k.to_string()).or_insert(0) += 1;
    }

    pub fn busy(&self, c: usize) -> bool {
        self.futs[c].is_some()
    }

    fn actual(&mut self, sym: &str) -> Uuid {
        if sym == "nil" {
            return Uuid::nil();
        }
        for (h, s) in &self.syms {
            if s == sym {
                return Uuid::parse_str(h).unwrap();
            }
        }
        // an id the store has never seen
        let n: u128 = sym[1..].parse().unwrap_or(0);
        let u = Uuid::from_u128(0x9999_0000_0000_0000_0000_0000_0000_0000 + n);
        self.syms.insert(u.simple().to_string(), sym.to_string());
        u
    }

    fn sym(&mut self, id: Uuid) -> String {
        let h = id.simple().to_string();
        if let Some(s) = self.syms.get(&h) {
            return s.clone();
        }
        self.nver += 1;
        let s = format!("n{}", self.nver);
        self.syms.insert(h, s.clone());
        s
    }

    /// replace every 32-hex id in a log line by its symbol (new ids are numbered as they appear)
    fn symbolize(&mut self, line: &str) -> String {
        let b = line.as_bytes();
        let mut out = String::new();
        let mut i = 0;
        while i < b.len() {
            if i + 32 <= b.len() && b[i..i + 32].iter().all(|c| c.is_ascii_hexdigit()) && (i + 32 == b.len() || !b[i + 32].is_ascii_hexdigit()) {
                let id = Uuid::parse_str(&line[i..i + 32]).unwrap();
                out.push_str(&self.sym(id));
                i += 32;
            } else {
                out.push(b[i] as char);
                i += 1;
            }
        }
        out
    }

    fn new_log(&mut self) -> Vec<String> {
        let lines: Vec<String> = {
            let st = self.store.lock().unwrap();
            st.log[self.logpos..].to_vec()
        };
        self.logpos += lines.len();
        for l in &lines {
            // "cN cas latest none => <id> -> true": the first version; its object is v-<parent>-<id>
            let t: Vec<&str> = l.split(' ').collect();
            if t.len() == 8 && t[1] == "cas" && t[3] == "none" && t[7] == "true" && self.first_parent.is_none() {
                let st = self.store.lock().unwrap();
                let suffix = format!("-{}", t[5]);
                if let Some(name) = st.objects.keys().find(|k| k.starts_with("v-") && k.ends_with(&suffix)) {
                    self.first_parent = Uuid::parse_str(&name[2..34]).ok();
                }
            }
        }
        lines.iter().map(|l| self.symbolize(l)).collect()
    }

    fn fmt_ret(&mut self, c: usize, r: Ret) -> String {
        let e = |s: &String| if s.contains("injected") { "fault".to_string() } else { format!("err:{}", s.replace(' ', "_")) };
        match r {
            Ret::Av(Ok(AddVersionResult::Ok(id))) => format!("ret {} ok {}", c, self.sym(id)),
            Ret::Av(Ok(AddVersionResult::ExpectedParentVersion(id))) => format!("ret {} exp {}", c, self.sym(id)),
            Ret::Av(Err(s)) => format!("ret {} {}", c, e(&s)),
            Ret::Gc(Ok(GetVersionResult::Version { version_id, parent_version_id, history_segment })) => format!(
                "ret {} ver {} parent={} {}",
                c,
                self.sym(version_id),
                self.sym(parent_version_id),
                String::from_utf8_lossy(&history_segment).strip_prefix("payload-").map(|x| x.to_string()).unwrap_or(format!("?{}", hex(&history_segment)))
            ),
            Ret::Gc(Ok(GetVersionResult::NoSuchVersion)) => format!("ret {} none", c),
            Ret::Gc(Err(s)) => format!("ret {} {}", c, e(&s)),
            Ret::Unit(Ok(())) => format!("ret {} done", c),
            Ret::Unit(Err(s)) => format!("ret {} {}", c, e(&s)),
            Ret::Gs(Ok(Some((v, b)))) => format!(
                "ret {} snap {} {}",
                c,
                self.sym(v),
                String::from_utf8_lossy(&b).strip_prefix("payload-").map(|x| x.to_string()).unwrap_or(format!("?{}", hex(&b)))
            ),
            Ret::Gs(Ok(None)) => format!("ret {} nosnap", c),
            Ret::Gs(Err(s)) => format!("ret {} {}", c, e(&s)),
        }
    }

    /// poll client c's call until it parks at the gate or returns
    fn drive(&mut self, c: usize) -> Option<Ret> {
        let store = self.store.clone();
        let mut fut = self.futs[c].take()?;
        let r = poll_until(&mut fut, &|| store.lock().unwrap().at_gate[c]);
        match r {
            Some(v) => Some(v),
            None => {
                self.futs[c] = Some(fut);
                None
            }
        }
    }

    pub fn exec(&mut self, line: &str) -> (String, String) {
        let toks: Vec<&str> = line.split_whitespace().collect();
        taskchampion::server::verif::set_rand(Some(255));
        match toks.as_slice() {
            ["CLIENTS", _] => (line.to_string(), String::new()),
            ["AGE", n] => {
                let n: u64 = n.parse().unwrap_or(0);
                self.store.lock().unwrap().clock += n * 86400;
                (line.to_string(), "ok".into())
            }
            ["BEGIN", c, call @ ..] => {
                let c: usize = c.parse().unwrap();
                if self.futs[c].is_some() {
                    return (line.to_string(), "busy".into());
                }
                let srv: &'static mut VerifCloud = unsafe { &mut *self.servers[c] };
                let fut: Pin<Box<dyn Future<Output = Ret>>> = match call {
                    ["AV", p, d] => {
                        let parent = self.actual(p);
                        let pl = payload(d);
                        Box::pin(async move { Ret::Av(srv.add_version(parent, pl).await.map(|x| x.0).map_err(|e| e.to_string())) })
                    }
                    ["GC", p] => {
                        let parent = self.actual(p);
                        Box::pin(async move { Ret::Gc(srv.get_child_version(parent).await.map_err(|e| e.to_string())) })
                    }
                    ["AS", v, d] => {
                        let vid = self.actual(v);
                        let pl = payload(d);
                        Box::pin(async move { Ret::Unit(srv.add_snapshot(vid, pl).await.map_err(|e| e.to_string())) })
                    }
                    ["GS"] => Box::pin(async move { Ret::Gs(srv.get_snapshot().await.map_err(|e| e.to_string())) }),
                    ["CLEAN"] => Box::pin(async move { Ret::Unit(srv.cleanup().await.map_err(|e| e.to_string())) }),
                    _ => return (line.to_string(), "bad-op".into()),
                };
                self.futs[c] = Some(fut);
                self.stat(&format!("begin.{}", call[0]));
                // runs up to its first store request
                let r = self.drive(c);
                let mut evs = self.new_log();
                if let Some(r) = r {
                    evs.push(self.fmt_ret(c, r));
                }
                let mut l = line.to_string();
                for e in &evs {
                    l.push_str(" :: ");
                    l.push_str(e);
                }
                (l, "ok".into())
            }
            ["STEP", c, ..] => {
                let c: usize = c.parse().unwrap();
                if self.futs[c].is_none() {
                    return (format!("STEP {}", c), "idle".into());
                }
                {
                    let mut st = self.store.lock().unwrap();
                    st.permits[c] = Some(1);
                    st.at_gate[c] = false;
                }
                let r = self.drive(c);
                {
                    let mut st = self.store.lock().unwrap();
                    st.permits[c] = Some(0);
                }
                self.stat("step");
                let mut evs = self.new_log();
                if let Some(r) = r {
                    self.stat("returned");
                    evs.push(self.fmt_ret(c, r));
                }
                let mut l = format!("STEP {}", c);
                for e in &evs {
                    l.push_str(" :: ");
                    l.push_str(e);
                }
                (l, "ok".into())
            }
            ["END"] => {
                let names: Vec<(String, u64)> = {
                    let st = self.store.lock().unwrap();
                    st.objects.iter().map(|(k, v)| (k.clone(), v.0)).collect()
                };
                let mut out: Vec<String> = Vec::new();
                let latest = {
                    let st = self.store.lock().unwrap();
                    st.objects.get("latest").map(|x| String::from_utf8_lossy(&x.1).to_string())
                };
                let l = match latest {
                    Some(h) => self.symbolize(&h),
                    None => "none".into(),
                };
                let mut objs: Vec<String> = names.iter().filter(|(n, _)| n.starts_with("v-") || n.starts_with("s-")).map(|(n, _)| self.symbolize(n)).collect();
                objs.sort();
                out.push(format!("latest {}", l));
                out.push(format!("objects {}", objs.join(" ")));
                // a fresh replica: newest snapshot (or nil), then the children one after the other
                let n = self.servers.len();
                let walk = {
                    let mut fresh = block_on(VerifCloud::new(self.store.clone(), n, b"conc secret".to_vec())).expect("fresh client");
                    let mut at = match block_on(fresh.get_snapshot()) {
                        Ok(Some((v, _))) => v,
                        Ok(None) => self.first_parent.unwrap_or(Uuid::nil()),
                        Err(e) => return (format!("END :: latest {} :: objects {} :: walk error-{}", l, objs.join(" "), e.to_string().replace(' ', "_")), "ok".into()),
                    };
                    let start = self.sym(at);
                    let mut steps = 0;
                    let mut err = None;
                    loop {
                        match block_on(fresh.get_child_version(at)) {
                            Ok(GetVersionResult::Version { version_id, .. }) => {
                                at = version_id;
                                steps += 1;
                                if steps > 10000 {
                                    err = Some("loop".to_string());
                                    break;
                                }
                            }
                            Ok(GetVersionResult::NoSuchVersion) => break,
                            Err(e) => {
                                err = Some(e.to_string().replace(' ', "_"));
                                break;
                            }
                        }
                    }
                    let end = self.sym(at);
                    // the walk's requests are not part of the trace
                    self.logpos = self.store.lock().unwrap().log.len();
                    match err {
                        Some(e) => format!("error-{}", e),
                        None if end == l || (l == "none" && end == "nil") => format!("reaches-latest from={} steps={}", start, steps),
                        None => format!("stops-at-{} from={} steps={} latest={}", end, start, steps, l),
                    }
                };
                (format!("END :: latest {} :: objects {} :: walk {}", l, objs.join(" "), walk), "ok".into())
            }
            _ => (line.to_string(), "bad-op".into()),
        }
    }
}

/// list requests: write what the listing went on to report into its `start` event, so that the
/// reader of the trace knows it at that point
pub fn annotate_lists(lines: &mut [String]) {
    // (line index, event index) of the open listing per client and prefix
    let mut open: HashMap<(String, String), (usize, usize, Vec<String>)> = HashMap::new();
    let mut patches: Vec<(usize, usize, Vec<String>)> = Vec::new();
    for li in 0..lines.len() {
        let evs: Vec<String> = lines[li].split(" :: ").map(|s| s.to_string()).collect();
        for (ei, e) in evs.iter().enumerate().skip(1) {
            let t: Vec<&str> = e.split(' ').collect();
            if t.len() >= 4 && t[1] == "list" && t[3] == "start" {
                open.insert((t[0].to_string(), t[2].to_string()), (li, ei, Vec::new()));
            } else if t.len() >= 5 && t[1] == "list" && t[3] == "->" {
                if let Some(o) = open.get_mut(&(t[0].to_string(), t[2].to_string())) {
                    if t.len() == 5 {
                        o.2.push(t[4].to_string());
                    }
                }
            } else if t.len() == 4 && t[1] == "list" && t[3] == "end" {
                if let Some(o) = open.remove(&(t[0].to_string(), t[2].to_string())) {
                    patches.push(o);
                }
            }
        }
    }
    // listings that never ended (the case stopped first) report what they reported so far
    for (_, o) in open {
        patches.push(o);
    }
    for (li, ei, names) in patches {
        let mut evs: Vec<String> = lines[li].split(" :: ").map(|s| s.to_string()).collect();
        evs[ei] = format!("{} reported={}", evs[ei], if names.is_empty() { "-".to_string() } else { names.join(",") });
        lines[li] = evs.join(" :: ");
    }
}

pub struct ConcGen {
    pub n: usize,
    pub acked: Vec<String>,
    pub nd: usize,
    pub cleanup: bool,
    /// clients that are inside a cleanup call
    pub cleaning: Vec<bool>,
    /// per client: the version it was just told was accepted (a replica stores its snapshot next)
    pub snap_next: Vec<Option<String>>,
}

pub fn gen_line(g: &mut ConcGen, run: &Conc, rng: &mut Rng) -> String {
    for c in 0..g.n {
        if !run.busy(c) {
            g.cleaning[c] = false;
        }
    }
    // while somebody cleans up, the others keep adding versions and snapshots of them: cleanup must
    // cope with what appears between its requests
    if g.cleanup && g.cleaning.iter().any(|x| *x) && rng.below(3) > 0 {
        let others: Vec<usize> = (0..g.n).filter(|c| !g.cleaning[*c]).collect();
        if !others.is_empty() {
            let c = *rng.pick(&others[..]);
            if run.busy(c) {
                return format!("STEP {}", c);
            }
            if let Some(v) = g.snap_next[c].take() {
                g.nd += 1;
                return format!("BEGIN {} AS {} {}", c, v, g.nd);
            }
            g.nd += 1;
            return match rng.below(6) {
                0 => format!("BEGIN {} CLEAN", c),
                _ => format!("BEGIN {} AV {} {}", c, g.acked.last().cloned().unwrap_or("nil".into()), g.nd),
            };
        }
    }
    let c = rng.below(g.n as u64) as usize;
    if run.busy(c) || rng.below(4) > 0 {
        // prefer moving somebody who is in the middle of a call
        let busy: Vec<usize> = (0..g.n).filter(|i| run.busy(*i)).collect();
        if !busy.is_empty() && (run.busy(c) || rng.below(3) > 0) {
            let c = if run.busy(c) && rng.below(2) == 0 { c } else { *rng.pick(&busy[..]) };
            return format!("STEP {}", c);
        }
    }
    if run.busy(c) {
        return format!("STEP {}", c);
    }
    let known: Vec<String> = {
        let mut k = vec!["nil".to_string()];
        k.extend(g.acked.iter().cloned());
        k
    };
    let parent = |rng: &mut Rng| -> String {
        match rng.below(10) {
            0..=5 => known.last().unwrap().clone(),
            6 | 7 => rng.pick(&known[..]).clone(),
            8 => "nil".into(),
            _ => format!("x{}", rng.below(3)),
        }
    };
    g.nd += 1;
    match rng.below(20) {
        0..=8 => format!("BEGIN {} AV {} {}", c, parent(rng), g.nd),
        9..=14 => format!("BEGIN {} GC {}", c, parent(rng)),
        15 | 16 => {
            if g.acked.is_empty() {
                format!("BEGIN {} GC nil", c)
            } else {
                format!("BEGIN {} AS {} {}", c, rng.pick(&g.acked[..]), g.nd)
            }
        }
        17 => format!("BEGIN {} GS", c),
        _ => {
            if g.cleanup {
                if rng.below(2) == 0 { format!("AGE {}", 100 + rng.below(200)) } else { format!("BEGIN {} CLEAN", c) }
            } else {
                format!("BEGIN {} GC {}", c, parent(rng))
            }
        }
    }
}
