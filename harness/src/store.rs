//! Family `store`: the StorageTxn contract, call by call, on InMemoryStorage and SqliteStorage
//! (same calls on both = one group), with close/reopen, read-only handles and databases
//! downgraded to older schemas.
use crate::common::*;
use crate::rep::{fmt_old_map, lop_toks, parse_lop};
use std::collections::HashMap;
use taskchampion::storage::inmemory::InMemoryStorage;
use taskchampion::storage::{AccessMode, Storage, StorageTxn, TaskMap};
use taskchampion::{Operation, SqliteStorage};
use uuid::Uuid;

pub enum Backend {
    Mem(Box<InMemoryStorage>),
    Sql(Option<Box<SqliteStorage>>, tempfile::TempDir),
}

pub struct StoreRun {
    backend: Backend,
    storage: *mut dyn Storage,
    txn: Option<Box<dyn StorageTxn + Send + 'static>>,
    pub did_sync_complete: bool,
    /// calls the generator has decided on in advance (blocks that only mean something as a whole)
    pub script: std::collections::VecDeque<String>,
}

fn canon_tasks(v: Vec<(Uuid, TaskMap)>) -> String {
    let m: HashMap<Uuid, TaskMap> = v.into_iter().collect();
    canon_db(&m)
}

fn fmt_ops(l: &[Operation]) -> String {
    let mut s = format!("ops {}", l.len());
    for o in l {
        s.push_str(" ; ");
        s.push_str(&lop_toks(o));
    }
    s
}

fn fmt_ws(ws: &[Option<Uuid>]) -> String {
    let mut s = String::from("ws");
    for e in ws {
        match e {
            Some(u) => s.push_str(&format!(" {}", u.as_u128())),
            None => s.push_str(" -"),
        }
    }
    s
}

fn res<T>(r: Result<T, taskchampion::Error>, f: impl FnOnce(T) -> String) -> String {
    match r {
        Ok(v) => f(v),
        Err(e) => {
            let m = format!("{:?} {}", e, e);
            if m.contains("ReadOnly") || m.contains("read-only") || m.contains("read only") {
                "read-only".into()
            } else {
                "err".into()
            }
        }
    }
}

impl StoreRun {
    pub fn new(sql: bool) -> StoreRun {
        if sql {
            let dir = tempfile::TempDir::new_in(crate::work_dir()).unwrap();
            let mut st = Box::new(block_on(SqliteStorage::new(dir.path(), AccessMode::ReadWrite, true)).unwrap());
            let p: *mut dyn Storage = &mut *st;
            StoreRun { backend: Backend::Sql(Some(st), dir), storage: p, txn: None, did_sync_complete: false, script: Default::default() }
        } else {
            let mut st = Box::new(InMemoryStorage::new());
            let p: *mut dyn Storage = &mut *st;
            StoreRun { backend: Backend::Mem(st), storage: p, txn: None, did_sync_complete: false, script: Default::default() }
        }
    }

    fn reopen(&mut self, mode: AccessMode, downgrade: Option<&str>) {
        self.txn = None;
        if let Backend::Sql(st, dir) = &mut self.backend {
            *st = None; // close
            if let Some(v) = downgrade {
                downgrade_db(&dir.path().join("taskchampion.sqlite3"), v);
            }
            let mut s = Box::new(block_on(SqliteStorage::new(dir.path(), mode, false)).unwrap());
            self.storage = &mut *s;
            *st = Some(s);
        }
    }

    pub fn in_txn(&self) -> bool {
        self.txn.is_some()
    }

    /// working-set length seen by the open transaction (silent, for the generator)
    pub fn ws_len(&mut self) -> usize {
        match &mut self.txn {
            Some(t) => block_on(t.get_working_set()).map(|w| w.len()).unwrap_or(1),
            None => 1,
        }
    }
    pub fn last_unsynced(&mut self) -> Option<Operation> {
        match &mut self.txn {
            Some(t) => block_on(t.unsynced_operations()).ok().and_then(|v| v.last().cloned()),
            None => None,
        }
    }

    pub fn exec(&mut self, line: &str) -> String {
        let toks: Vec<&str> = line.split_whitespace().collect();
        match toks.as_slice() {
            ["BEGIN"] => {
                self.txn = None;
                let st: &'static mut dyn Storage = unsafe { &mut *self.storage };
                match block_on(st.txn()) {
                    Ok(t) => {
                        self.txn = Some(t);
                        "begun".into()
                    }
                    Err(_) => "err".into(),
                }
            }
            ["DROP"] => {
                self.txn = None;
                "dropped".into()
            }
            ["REOPEN"] => {
                self.reopen(AccessMode::ReadWrite, None);
                "reopened".into()
            }
            ["REOPEN_RO"] => {
                self.reopen(AccessMode::ReadOnly, None);
                "reopened".into()
            }
            ["DOWNGRADE", v] => {
                if let Backend::Sql(_, _) = &self.backend {
                    DOWNGRADE_OK.with(|c| c.set(true));
                }
                self.reopen(AccessMode::ReadWrite, Some(v));
                if DOWNGRADE_OK.with(|c| c.get()) {
                    "reopened".into()
                } else {
                    "downgrade-failed".into()
                }
            }
            [] => String::new(),
            _ => {
                let t = match &mut self.txn {
                    Some(t) => t,
                    None => return "no-txn".into(),
                };
                let u = |s: &str| uuid_of(s.parse::<u128>().unwrap_or(0));
                match toks.as_slice() {
                    ["get_task", a] => res(block_on(t.get_task(u(a))), |v| match v {
                        None => "none".into(),
                        Some(m) => canon_task(&m),
                    }),
                    ["create_task", a] => res(block_on(t.create_task(u(a))), |b| b.to_string()),
                    ["set_task", a, m] => match crate::rep::parse_old_map_pub(m) {
                        Some(m) => res(block_on(t.set_task(u(a), m)), |_| "ok".into()),
                        None => "bad-op".into(),
                    },
                    ["delete_task", a] => res(block_on(t.delete_task(u(a))), |b| b.to_string()),
                    ["all_tasks"] => res(block_on(t.all_tasks()), canon_tasks),
                    ["all_task_uuids"] => res(block_on(t.all_task_uuids()), |mut v| {
                        v.sort_by_key(|x| x.as_u128());
                        v.dedup();
                        let mut s = String::from("uuids");
                        for x in v {
                            s.push_str(&format!(" {}", x.as_u128()));
                        }
                        s
                    }),
                    ["base_version"] => res(block_on(t.base_version()), |v| format!("v {}", v.as_u128())),
                    ["set_base_version", v] => res(block_on(t.set_base_version(u(v))), |_| "ok".into()),
                    ["get_task_operations", a] => res(block_on(t.get_task_operations(u(a))), |v| fmt_ops(&v)),
                    ["unsynced_operations"] => res(block_on(t.unsynced_operations()), |v| fmt_ops(&v)),
                    ["num_unsynced_operations"] => res(block_on(t.num_unsynced_operations()), |n| format!("n {}", n)),
                    ["add_operation", rest @ ..] => match parse_lop(rest) {
                        Some(o) => res(block_on(t.add_operation(o)), |_| "ok".into()),
                        None => "bad-op".into(),
                    },
                    ["remove_operation", rest @ ..] => match parse_lop(rest) {
                        Some(o) => res(block_on(t.remove_operation(o)), |_| "ok".into()),
                        None => "bad-op".into(),
                    },
                    ["sync_complete"] => {
                        self.did_sync_complete = true;
                        res(block_on(t.sync_complete()), |_| "ok".into())
                    }
                    ["get_working_set"] => res(block_on(t.get_working_set()), |w| fmt_ws(&w)),
                    ["add_to_working_set", a] => res(block_on(t.add_to_working_set(u(a))), |n| format!("n {}", n)),
                    ["set_working_set_item", i, x] => {
                        let x = if *x == "-" { None } else { Some(u(x)) };
                        res(block_on(t.set_working_set_item(i.parse().unwrap_or(0), x)), |_| "ok".into())
                    }
                    ["clear_working_set"] => res(block_on(t.clear_working_set()), |_| "ok".into()),
                    ["get_pending_tasks"] => res(block_on(t.get_pending_tasks()), canon_tasks),
                    ["is_empty"] => res(block_on(t.is_empty()), |b| b.to_string()),
                    ["commit"] => {
                        // a transaction is over after `commit`, whatever it returned (the contract
                        // allows one call; the SQLite proxy ends the transaction even when the
                        // commit is refused)
                        let r = res(block_on(t.commit()), |_| "ok".into());
                        self.txn = None;
                        r
                    }
                    _ => "bad-op".into(),
                }
            }
        }
    }
}

impl Drop for StoreRun {
    fn drop(&mut self) {
        self.txn = None;
    }
}

thread_local! {
    static DOWNGRADE_OK: std::cell::Cell<bool> = const { std::cell::Cell::new(true) };
}

fn has_column(con: &rusqlite::Connection, table: &str, col: &str) -> bool {
    con.query_row(
        "SELECT COUNT(*) FROM pragma_table_xinfo(?) WHERE name=?",
        [table, col],
        |r| r.get::<_, u32>(0),
    )
    .map(|n| n > 0)
    .unwrap_or(false)
}

/// rewrite a current database file into the layout an older TaskChampion wrote
fn downgrade_db(path: &std::path::Path, ver: &str) {
    let con = rusqlite::Connection::open(path).unwrap();
    let old_uuid_col = r#"ALTER TABLE operations ADD COLUMN uuid GENERATED ALWAYS AS (
                coalesce(json_extract(data, "$.Update.uuid"),
                         json_extract(data, "$.Create.uuid"),
                         json_extract(data, "$.Delete.uuid"))) VIRTUAL"#;
    let run = |sql: &str| {
        let _ = con.execute_batch(sql);
    };
    match ver {
        "0.1" => {
            run("DROP INDEX IF EXISTS operations_by_uuid; ALTER TABLE operations DROP COLUMN uuid;");
            run(old_uuid_col);
            run("CREATE INDEX operations_by_uuid ON operations (uuid); UPDATE version SET major=0, minor=1;");
        }
        "0.9" => {
            run("DROP INDEX IF EXISTS operations_by_uuid; ALTER TABLE operations DROP COLUMN uuid;");
            run(old_uuid_col);
            run("CREATE INDEX operations_by_uuid ON operations (uuid); DROP TABLE IF EXISTS version;");
        }
        "0.8" => {
            run("DROP INDEX IF EXISTS operations_by_uuid; ALTER TABLE operations DROP COLUMN uuid;");
            run("DROP INDEX IF EXISTS operations_by_synced; ALTER TABLE operations DROP COLUMN synced;");
            run("DROP TABLE IF EXISTS version;");
        }
        _ => {}
    }
    // confirm the layout really is the old one
    let version_table = has_column(&con, "version", "major");
    let ok = match ver {
        "0.1" => {
            version_table
                && con
                    .query_row("SELECT minor FROM version", [], |r| r.get::<_, u32>(0))
                    .map(|m| m == 1)
                    .unwrap_or(false)
        }
        "0.9" => !version_table && has_column(&con, "operations", "uuid") && has_column(&con, "operations", "synced"),
        "0.8" => !version_table && !has_column(&con, "operations", "uuid") && !has_column(&con, "operations", "synced"),
        _ => false,
    };
    DOWNGRADE_OK.with(|c| c.set(ok));
}

/// generate the next call from the state of the (mem) run
pub fn gen_line(run: &mut StoreRun, rng: &mut Rng, allow_downgrade: bool) -> String {
    if run.in_txn() {
        if let Some(l) = run.script.pop_front() {
            return l;
        }
        if rng.chance(1, 25) {
            // operations of a task are synchronized, the task then vanishes without a further operation
            // (what applying another replica's Delete does), and the next sync_complete must forget its
            // operations — on both backends, also after a reopen
            let un = 1 + rng.below(4);
            let k = enc_str(*rng.pick(&["k", "status"]));
            let mut b: Vec<String> = vec![
                format!("create_task {}", un),
                format!("add_operation create {}", un),
                format!("add_operation update {} {} - {} 100 0", un, k, enc_str("v")),
                "sync_complete".into(),
                format!("get_task_operations {}", un),
            ];
            if rng.chance(1, 2) {
                b.push("commit".into());
                b.push("BEGIN".into());
            }
            b.push(format!("delete_task {}", un));
            if rng.chance(1, 2) {
                b.push(format!("add_operation update {} {} - {} 101 0", 1 + un % 4, k, enc_str("w")));
            }
            b.push("sync_complete".into());
            b.push(format!("get_task_operations {}", un));
            b.push("commit".into());
            run.script = b.into();
            return run.script.pop_front().unwrap();
        }
    } else if let Some(l) = run.script.pop_front() {
        return l;
    }
    if !run.in_txn() {
        let r = rng.below(20);
        if r == 0 {
            return "REOPEN".into();
        }
        if r == 1 && allow_downgrade {
            let v = if run.did_sync_complete { *rng.pick(&["0.1", "0.9"]) } else { *rng.pick(&["0.1", "0.9", "0.8"]) };
            return format!("DOWNGRADE {}", v);
        }
        return "BEGIN".into();
    }
    let un = 1 + rng.below(4);
    let keys = ["status", "k", "é✓", "p\"q\\\n", ""];
    let vals = ["", "v", "pending", "\u{1F600}\u{7}", "1e3", "0"];
    let gen_map = |rng: &mut Rng| {
        let mut m = TaskMap::new();
        for _ in 0..rng.below(4) {
            m.insert(rng.pick(&keys).to_string(), rng.pick(&vals).to_string());
        }
        fmt_old_map(&m)
    };
    let gen_op = |rng: &mut Rng| -> String {
        match rng.below(4) {
            0 => format!("create {}", 1 + rng.below(4)),
            1 => "undo".to_string(),
            2 => format!("delete {} {}", 1 + rng.below(4), gen_map(rng)),
            _ => format!(
                "update {} {} {} {} {} {}",
                1 + rng.below(4),
                enc_str(*rng.pick(&keys)),
                if rng.chance(1, 2) { "-".to_string() } else { enc_str(*rng.pick(&vals)) },
                if rng.chance(1, 4) { "-".to_string() } else { enc_str(*rng.pick(&vals)) },
                100 + rng.below(3),
                rng.below(2) * 123456789
            ),
        }
    };
    match rng.below(40) {
        0..=2 => format!("get_task {}", un),
        3..=5 => format!("create_task {}", un),
        6..=9 => format!("set_task {} {}", un, gen_map(rng)),
        10..=11 => format!("delete_task {}", un),
        12 => "all_tasks".into(),
        13 => "all_task_uuids".into(),
        14 => "base_version".into(),
        15 => format!("set_base_version {}", rng.below(3)),
        16 => format!("get_task_operations {}", un),
        17 => "unsynced_operations".into(),
        18 => "num_unsynced_operations".into(),
        19..=22 => format!("add_operation {}", gen_op(rng)),
        23..=24 => match run.last_unsynced() {
            Some(o) if rng.chance(4, 5) => format!("remove_operation {}", lop_toks(&o)),
            _ => format!("remove_operation {}", gen_op(rng)),
        },
        25 => "sync_complete".into(),
        26..=27 => "get_working_set".into(),
        28..=30 => format!("add_to_working_set {}", un),
        31..=32 => {
            let len = run.ws_len();
            if len > 1 {
                let i = 1 + rng.below(len as u64 - 1);
                if rng.chance(1, 2) {
                    format!("set_working_set_item {} -", i)
                } else {
                    format!("set_working_set_item {} {}", i, un)
                }
            } else {
                format!("add_to_working_set {}", un)
            }
        }
        33 => "clear_working_set".into(),
        34 => "get_pending_tasks".into(),
        35 => "is_empty".into(),
        36..=38 => "commit".into(),
        _ => "DROP".into(),
    }
}
